"""C10 monitor: every bpf() syscall the library issues, with the size of the
Python object behind every pointer argument

Installed from outside by replacing module globals of ebpfcat.bpf that the
library resolves at call time: bpf, addrof, addressof, c_char.
"""
import ctypes
import errno

from . import use_repo
use_repo()

import ebpfcat.bpf as _bpf  # noqa: E402
from . import kern  # noqa: E402

_orig = dict(bpf=_bpf.bpf, addrof=_bpf.addrof, addressof=_bpf.addressof,
             c_char=_bpf.c_char)

MAP_CMDS = {1: "LOOKUP", 2: "UPDATE", 3: "DELETE", 4: "GET_NEXT_KEY",
            21: "LOOKUP_AND_DELETE"}


class Refused(OSError):
    pass


class Monitor:
    current = None      # the monitor installed last (for error paths)

    def __init__(self, sess):
        self.refused = 0
        self.sess = sess
        self.sizes = {}       # address -> (size, kind)
        self.calls = []       # dicts
        self.violations = []
        self.unknown = 0
        self.ncpu = kern.possible_cpus()

    # proxies -------------------------------------------------------------
    def addrof(self, ptr):
        a = _orig["addrof"](ptr)
        if isinstance(ptr, (bytearray, bytes, memoryview)):
            self.sizes[a] = (len(ptr), type(ptr).__name__)
        elif hasattr(ptr, "raw"):
            self.sizes[a] = (ctypes.sizeof(ptr), "ctypes")
        return a

    def addressof(self, obj):
        a = _orig["addressof"](obj)
        n = getattr(obj, "_vf_len", None)
        if n is not None:
            self.sizes[a] = (n, "bytearray")
        return a

    def make_c_char(self):
        mon = self

        class CChar:
            @staticmethod
            def from_buffer(buf, offset=0):
                o = _orig["c_char"].from_buffer(buf, offset)
                # ctypes instances accept attributes
                try:
                    o._vf_len = len(buf) - offset
                except AttributeError:
                    pass
                mon._last = (o, len(buf) - offset)
                return o
        return CChar

    # commands this "kernel" does not know: {command: errno} (e.g.
    # BPF_MAP_LOOKUP_AND_DELETE_ELEM on hash maps before Linux 5.14)
    deny = {}

    def bpf(self, cmd, fmt, *args):
        if cmd in self.deny:
            self.denied = getattr(self, "denied", 0) + 1
            raise OSError(self.deny[cmd], "vf monitor: command not "
                          "supported by this kernel")
        if cmd in MAP_CMDS:
            before = len(self.violations)
            self.check(cmd, args)
            if len(self.violations) > before and cmd in (1, 4, 21):
                # the kernel would WRITE beyond the Python buffer: the call
                # is recorded and refused, so that the monitored process
                # survives to report it
                self.refused += 1
                raise Refused(errno.EFAULT, "vf monitor: call refused, the "
                              "kernel would write beyond the buffer")
        return _orig["bpf"](cmd, fmt, *args)

    # the rule ------------------------------------------------------------
    def check(self, cmd, args):
        fd = args[0]
        geo = self.sess.maps.get(fd)
        name = MAP_CMDS[cmd]
        rec = dict(cmd=name, fd=fd)
        if geo is None:
            self.unknown += 1
            rec["unknown_map"] = True
            self.calls.append(rec)
            return
        ks, vs = geo["key_size"], geo["value_size"]
        percpu = geo["type"].name.startswith("PERCPU") or \
            geo["type"].name == "LRU_PERCPU_HASH"
        need_v = ((vs + 7) // 8 * 8) * self.ncpu if percpu else vs
        rec.update(map_type=geo["type"].name, key_size=ks, value_size=vs)

        def size_of(addr, what):
            if addr == 0:
                return None
            s = self.sizes.get(addr)
            if s is None:
                self.unknown += 1
                rec[what + "_unknown"] = True
                return None
            rec[what + "_buf"] = s[0]
            return s[0]
        key = size_of(args[1], "key") if len(args) > 1 else None
        if key is not None and key < ks:
            self.violations.append(dict(rec, problem="key buffer smaller "
                                        f"than key size: {key} < {ks}"))
        if cmd in (1, 2, 21) and len(args) > 2:
            v = size_of(args[2], "value")
            if v is not None and v < need_v:
                self.violations.append(dict(
                    rec, problem=f"value buffer smaller than the "
                    f"{'per-CPU ' if percpu else ''}value size: {v} < "
                    f"{need_v}"))
        if cmd == 4 and len(args) > 2:
            v = size_of(args[2], "next_key")
            if v is not None and v < ks:
                self.violations.append(dict(
                    rec, problem=f"next-key buffer smaller than key size: "
                    f"{v} < {ks}"))
        self.calls.append(rec)

    # install -------------------------------------------------------------
    def __enter__(self):
        Monitor.current = self
        _bpf.bpf = self.bpf
        _bpf.addrof = self.addrof
        _bpf.addressof = self.addressof
        _bpf.c_char = self.make_c_char()
        return self

    def __exit__(self, *a):
        _bpf.bpf = _orig["bpf"]
        _bpf.addrof = _orig["addrof"]
        _bpf.addressof = _orig["addressof"]
        _bpf.c_char = _orig["c_char"]
