"""importable targets for spawned child processes"""
import time


def obedient_child(running, log_path=None):
    """stands in for ProcessSyncGroup.subprocess_run: cycles until the
    parent clears the shared running flag"""
    n = 0
    while running.value:
        time.sleep(0.002)
        n += 1
        if n > 5000:      # 10 s: the parent forgot us
            break
    if log_path:
        with open(log_path, "w") as f:
            f.write(f"stopped after {n} cycles running={running.value}\n")
